#!/bin/bash
# try_mutants.sh <PROP> [name...] : run the stored mutants of a property (all, or the named ones) against its quick check,
# 4 in parallel; prints FIRED <rules> / SILENT per mutant
P=$1; shift
D=/verif/selftest/mutants/$P
L=("$@"); [ ${#L[@]} -eq 0 ] && L=($(ls $D | sed 's/\.diff$//'))
for n in "${L[@]}"; do
  ( /verif/tools/try_patch.sh $D/$n.diff $P > /tmp/tm_${P}_$n.out 2>&1 ) &
  while [ $(jobs -r | wc -l) -ge 4 ]; do sleep 1; done
done
wait
for n in "${L[@]}"; do
  o=/tmp/tm_${P}_$n.out
  if grep -q "exit=1" $o; then echo "FIRED  $P/$n: $(grep -o 'violated: \[[A-Za-z0-9.]*' $o | sed 's/violated: \[//' | sort -u | tr '\n' ' ')";
  elif grep -q "APPLY FAILED" $o; then echo "APPLYFAIL $P/$n";
  else echo "SILENT $P/$n: $(grep -E 'exit=|ANALYSIS|compile' $o | head -2 | tr '\n' ' ')"; fi
  rm -f $o
done
