#!/usr/bin/env python3
"""Developer tool: regenerates tables/panic_sites.json and the C10 entries of known_findings.json from the
review notes below (reasons are attached per function/line *at review time*; the table itself stores
semantic keys). Re-run after a change of the term engine, then re-read the diff of the table."""
import sys,glob,collections,json
sys.path.insert(0,'/verif')
from engine import extract
from engine.runner import Ctx
from engine.facts import Facts
from rules import c10, common
d,th,n,s=extract.ensure_facts()
F=Facts(d)
from engine import roles as _roles, inline as _inline
_roles.canonicalize(F); _inline.apply(F, _roles.resolve(F).keys())
ctx=Ctx('C10','quick',F,th)
rs,nimpl=c10.roots(ctx)
cl0=ctx.cg.closure(rs,c10.skip)
tab=json.load(open('/verif/tables/extern_api.json'))['apis']
panicking=set(k for k,v in tab.items() if v['disposition']=='panicking')
cl,sites=common.inventory(ctx,rs,c10.skip,panicking)
out=[]
for s_,r in common.dedupe(ctx,sites,True):
    if r: continue
    out.append(s_)
import re
# reasons keyed by (file suffix, root-fn suffix) with optional per-line overrides; lines are used only
# here, while generating; the table stores semantic keys.
R = {
 ("bft/src/v2_chonky_bft/commit.rs","on_commit"): {119:"CommitQC::add cannot fail: committee membership, duplicate-signer, signature and message checks precede it in on_commit (C04.3/C16.5 obligations)", 151:"the entry was inserted earlier in the same handler invocation (&mut self, no await in between)", 176:"Instant - Instant of two monotonic clock readings (now >= view_start)"},
 ("bft/src/v2_chonky_bft/mod.rs","StateMachine::run"): {0:"cast().unwrap() inside the match arm on the same message variant (ConsensusMsg kind already matched)", 354:"Instant - Instant of two monotonic clock readings taken in this iteration"},
 ("bft/src/v2_chonky_bft/mod.rs","StateMachine::start"): {0:"now + configured view_timeout (local configuration, not network input)"},
 ("bft/src/v2_chonky_bft/new_view.rs","get_justification"): {0:"invariant: called only after a view start, where at least one of high_commit_qc/high_timeout_qc is set (C05.4 both-None row reaches only this assertion); unwraps are on the branch that tested is_some/compared views"},
 ("bft/src/v2_chonky_bft/new_view.rs","start_new_view"): {144:"watch::Sender::send fails only if all receivers dropped; the proposer task holds one for the scope's lifetime", 0:"monotonic clock arithmetic with local configuration (now + view_timeout, now - view_start)"},
 ("bft/src/v2_chonky_bft/proposal.rs","on_proposal"): {0:"Instant - Instant of monotonic clock readings (now >= view_start)"},
 ("bft/src/v2_chonky_bft/timeout.rs","on_timeout"): {119:"TimeoutQC::add cannot fail: committee membership, duplicate-signer, signature and message checks precede it in on_timeout", 150:"the entry was inserted earlier in the same handler invocation"},
 ("bft/src/v2_chonky_bft/timeout.rs","start_timeout"): {0:"now + configured view_timeout (local configuration)"},
 ("executor/src/lib.rs","spawn_components"): {0:"start-up wiring on local configuration/engine state, each unwrap guarded by the is_some() conjunction above it; the else-branch epoch.unwrap() is evaluated only with TRACE logging before genesis (DESIGN section 7 note; not network input)"},
 ("network/src/consensus/mod.rs","MsgPoolRecv::recv"): {0:"BTreeMap::range(next..) is a RangeFrom: start > end impossible"},
 ("network/src/gossip/fetch.rs","Queue::request"): {0:"first_key_value() right after insert into the same map under the watch lock"},
 ("network/src/gossip/validator_addrs.rs","announce"): {0:"version counter of this node's own signed announcement; overflow needs 2^64 own announcements"},
 ("network/src/lib.rs","Runner::run"): {0:"guarded by validators_opt.is_some() two lines above (local engine state)"},
 ("network/src/metrics.rs","received_throughput"): {0:"minutes elapsed is monotone (Instant::elapsed) and minutes_elapsed_last was stored from an earlier reading"},
 ("network/src/metrics.rs","sent_throughput"): {0:"minutes elapsed is monotone (Instant::elapsed) and minutes_elapsed_last was stored from an earlier reading"},
 ("network/src/mux/header.rs","StreamId::new"): {0:"callers pass streams.len() bounded by Config::verify (sum of max_streams <= MAX_STREAM_COUNT <= MASK); guard obligation C14.8"},
 ("network/src/mux/mod.rs","process_inbound_frames"): {231:"StreamKind is a single masked bit: ACCEPT and CONNECT are exhaustive", 242:"try_acquire_many_owned(0) on a never-closed semaphore always succeeds", 270:"size = min(length, read_frame_size) <= length"},
 ("network/src/mux/mod.rs","Mux::run"): {0:"process_inbound_frames loops forever: Ok(()) is never returned (return type carries no break path)"},
 ("network/src/mux/mod.rs","spawn_streams"): {0:"StreamKind argument is one of the two constants passed by run()"},
 ("network/src/mux/reusable_stream.rs","ReusableStream::run"): {0:"StreamKind argument is one of the two constants"},
 ("network/src/mux/transient_stream.rs","read_exact"): {50:"DATA frames are always built with data: Some(..) in process_inbound_frames", 59:"only OPEN/CLOSE/DATA frames are forwarded by process_inbound_frames (the bad-kind case is rejected there first) - guard obligation C14.4, run with C10"},
 ("network/src/mux/transient_stream.rs","write_all"): {0:"offset < buf.len() loop guard; push returns at most the remaining length"},
 ("network/src/noise/bytes.rs","Buffer::"): {0:"Buffer invariant begin <= end <= inner.len() maintained by every method (C13.5 conformance); callers pass n <= capacity()/len()"},
 ("network/src/noise/stream.rs","client_handshake"): {0:"snow builder with a constant, valid pattern string"},
 ("network/src/noise/stream.rs","server_handshake"): {0:"snow builder with a constant, valid pattern string"},
 ("network/src/noise/stream.rs","Stream::handshake"): {138:"handshake hash of the fixed pattern is exactly 32 bytes (Keccak256 ByteFmt length)", 0:"slices [..len] of a 65536-byte buffer with len returned by snow's read/write_message (<= 65535) or bounded by the u16 length prefix"},
 ("network/src/pool.rs","PoolWatch::insert"): {0:"extra_count < extra_limit checked on this path (usize limit)"},
 ("network/src/pool.rs","PoolWatch::remove"): {0:"decrement only for a key that was counted on insert (not in allowed set); guard obligation C12.5"},
 ("network/src/rpc/mod.rs","serve"): {0:"Instant - Instant of two monotonic readings"},
 ("network/src/rpc/mod.rs","Client::reserve"): {0:"Instant - Instant of two monotonic readings"},
 ("network/src/rpc/mod.rs","ReservedCall::call"): {0:"Instant - Instant of two monotonic readings"},
 ("network/src/rpc/mod.rs","add_client"): {0:"start-up wiring: each capability registered once per Service (static call sites, C15.6)"},
 ("network/src/rpc/mod.rs","add_server"): {0:"start-up wiring: each capability registered once per Service (static call sites, C15.6)"},
 ("network/src/watch.rs","send_if_ok"): {0:"mres is assigned by the closure that send_if_modified always invokes"},
 ("concurrency/src/ctx/channel.rs","bounded"): {0:"capacity constants at call sites are non-zero (local configuration)"},
 ("concurrency/src/ctx/clock.rs",""): {0:"clock plumbing on local monotonic time (ManualClock/AffineClock are test clocks; RealClock conversions of SystemTime since UNIX_EPOCH fit time::Duration)"},
 ("concurrency/src/ctx/mod.rs","with_timeout"): {0:"now + caller-supplied timeout (local configuration constants)"},
 ("concurrency/src/limiter/mod.rs",""): {0:"token-bucket arithmetic on i128/usize derived from local clock and configuration; debug_asserts state non-negativity of elapsed ticks (C15 rules check the update order)"},
 ("concurrency/src/net/mod.rs","Host::resolve"): {0:"JoinError of spawn_blocking only if the blocking closure panicked (it performs a DNS lookup)"},
 ("concurrency/src/net/tcp/listener_addr.rs","ListenerAddr::new"): {0:"configuration check at start-up (port 0 disallowed outside tests)"},
 ("concurrency/src/scope/",""): {0:"scope runtime invariants (terminate guard alive while the scope runs; join of a task that cannot be cancelled; a panic of a child task is deliberately re-raised, C17.7)"},
 ("concurrency/src/signal.rs",""): {0:"debug assertion on the internal semaphore state"},
 ("concurrency/src/sync/mod.rs","ExclusiveLock"): {0:"ExclusiveLock holds Some(value) until dropped"},
 ("concurrency/src/sync/mod.rs","try_send_modify"): {0:"result slot assigned by the closure that send_if_modified always invokes"},
 ("concurrency/src/sync/prunable_mpsc/mod.rs","Receiver::recv"): {0:"result slot assigned inside wait_for's successful predicate"},
 ("concurrency/src/time.rs","Utc as"): {0:"Utc is a Duration since the epoch; operands come from the local clock and configuration, decoded timestamps are only compared (C18.3), never added"},
 ("crypto/src/bls12_381/mod.rs","Default>::default"): {0:"decoding the constant INFINITY_SIGNATURE"},
 ("crypto/src/bls12_381/mod.rs","AggregateSignature::add"): {0:"add_signature with sig_groupcheck=false cannot fail"},
 ("crypto/src/fmt.rs","Text::prefix"): {0:"inner is a suffix of context by construction (strip_prefix results)"},
 ("engine/src/block_store.rs","truncate_cache"): {0:"cache.len() > CACHE_CAPACITY >= 0 on the same condition"},
 ("engine/src/manager.rs",""): {0:"local engine state: each unwrap follows a wait_for/is_some check on the same watch value (no await in between)"},
 ("protobuf/src/proto_fmt.rs","Reader::read"): {0:"quick_protobuf Writer into a Vec<u8> cannot fail"},
 ("protobuf/src/proto_fmt.rs","canonical"): {0:"canonical() encodes a value produced by build(); its own serialisation always parses (public API on local values)"},
 ("protobuf/src/proto_fmt.rs","canonical_raw"): {212:"field numbers come from iterating the descriptor's own fields", 0:"quick_protobuf Writer into a Vec<u8> cannot fail"},
 ("protobuf/src/std_conv.rs","SocketAddr"): {0:"try_from on a slice whose length was matched (4 / 16) in the enclosing match arm"},
 ("protobuf/src/std_conv.rs","Duration as zksync_protobuf::proto_fmt::ProtoFmt>::build"): {0:"build() of a local value: seconds-1 / nanos+1e9 only on the negative-nanos branch (|nanos| < 1e9)"},
 ("protobuf/src/std_conv.rs","Rate as"): {0:"build() of a local configuration value (burst usize -> u64)"},
 ("roles/src/node/keys.rs","sign_msg"): {0:"extract(insert(x)) of the same variant"},
 ("roles/src/validator/keys/secret_key.rs","sign_msg"): {0:"extract(insert(x)) of the same variant"},
 ("roles/src/validator/messages/block.rs",""): {0:"block numbers are engine-assigned and verified consecutive; u64::MAX blocks unreachable"},
 ("roles/src/validator/messages/consensus.rs","EpochNumber::next"): {0:"epoch numbers are engine-assigned (local state)"},
 ("roles/src/validator/messages/genesis.rs","build"): {0:"build() of a local Genesis whose protocol version was validated at construction"},
 ("roles/src/validator/messages/schedule.rs","Schedule::new"): {0:"loop index over the validator list"},
 ("roles/src/validator/messages/schedule.rs","view_leader"): {157:"leaders is non-empty (Schedule::new rejects a schedule without leaders, C07.3); index is % leaders.len()", 158:"index drawn from self.leaders, built from valid indices in Schedule::new", 165:"index drawn from self.leaders", 166:"partial sums of leader weights <= total weight (checked_add in Schedule::new)", 171:"eligibility < leader_weight = sum of leader weights, so the loop returns"},
 ("roles/src/validator/messages/schedule.rs","leader_weighted_eligibility"): {0:"BigUint remainder by BigUint::from(weight argument); the argument is self.leader_weight (C11.2 pins it) which is >= 1 because Schedule::new requires at least one leader and every weight > 0 (C07.3)"},
 ("roles/src/validator/messages/schedule.rs","max_faulty_weight"): {0:"total_weight >= 1 (Schedule::new rejects zero weights and empty schedules, C07.3)"},
 ("roles/src/validator/messages/schedule.rs","quorum_threshold"): {0:"f = (n-1)/5 <= n (C07 lemma)"},
 ("roles/src/validator/messages/schedule.rs","subquorum_threshold"): {0:"3f <= 3(n-1)/5 < n <= u64::MAX (C07 lemma)"},
 ("roles/src/validator/messages/v2/consensus.rs","bitand_assign"): {0:"guard obligation: both operands have schedule.len() bits (length checks in TimeoutQC::verify/add precede the use)"},
 ("roles/src/validator/messages/v2/consensus.rs","bitor_assign"): {0:"guard obligation: both operands have schedule.len() bits (length checks in TimeoutQC::verify/add precede the use)"},
 ("roles/src/validator/messages/v2/consensus.rs","Signers::weight"): {0:"guard obligation C04.1/C04.2 (run with C10): every caller checks signers.len() == schedule.len() first (CommitQC::verify, TimeoutQC::verify) or builds Signers with Signers::new(schedule.len())"},
 ("roles/src/validator/messages/v2/leader_proposal.rs","get_implied_block"): {0:"unwraps on match arms guarded by is_some()/Some patterns of the same high_vote/high_qc results (C02.1 table)"},
 ("roles/src/validator/messages/v2/replica_commit.rs","CommitQC::add"): {0:"index returned by Schedule::index(signer) (< schedule.len() == signers.len(), QC created with Signers::new(schedule.len()))"},
 ("roles/src/validator/messages/v2/replica_commit.rs","CommitQC::verify"): {0:"after the signers.len() == schedule.len() check; index enumerates schedule keys"},
 ("roles/src/validator/messages/v2/replica_timeout.rs","TimeoutQC::add"): {0:"index returned by Schedule::index(signer); Signers created with schedule.len() bits or length-checked"},
 ("roles/src/validator/messages/v2/replica_timeout.rs","high_vote"): {0:"sum of weights of disjoint signer sets <= total weight (<= u64::MAX by Schedule::new)"},
 ("roles/src/validator/messages/v2/replica_timeout.rs","TimeoutQC::verify"): {0:"after the signers.len() == schedule.len() check"},
 ("roles/src/validator/messages/v2/replica_timeout.rs","TimeoutQC::weight"): {0:"sum of weights of disjoint signer sets <= total weight after verify; before verify the sets may overlap but each <= total and there are at most n groups... bounded by n*total_weight which may exceed u64 only for adversarial unverified QCs: weight() is called after verify()"},
}
FINDINGS = {
 ("roles/src/validator/messages/consensus.rs", 21): "F6",
}
def reason_for(s):
    oq,f=s.origin(); root=s.key.split(' | ')[1]+" "+oq
    for (ff,ln),fid in FINDINGS.items():
        if f.endswith(ff) and s.ln==ln: return None, fid
    best=None
    for (ff,fs),m in R.items():
        if ff in f and fs in root:
            if best is None or len(ff)+len(fs)>best[0]:
                best=(len(ff)+len(fs),m)
    if best is None: return None,None
    m=best[1]
    return m.get(s.ln, m.get(0)), None
tab=collections.OrderedDict(); unk=[]; finds=[]
for s in out:
    r,fid=reason_for(s)
    if fid: finds.append((fid,s)); continue
    if r is None: unk.append(s); continue
    e=tab.setdefault(s.key,{"key":s.key,"count":0,"reason":r,"at":s.loc()})
    e["count"]+=1
print("tabled",sum(e['count'] for e in tab.values()),"keys",len(tab),"unknown",len(unk),"findings",len(finds))
for s in unk: print("UNK",s.loc(),s.kind,s.key[:200])
for fid,s in finds: print("FINDING",fid,s.loc(),s.key)
json.dump({"_doc":"reviewed may-panic sites reachable from the C10 root set; key = crate | root function | kind | callee/op | operand term (types instead of local names); 'at' is informational (position when reviewed)","sites":sorted(tab.values(), key=lambda e: e["key"])},open('/verif/tables/panic_sites.json','w'),indent=1)
