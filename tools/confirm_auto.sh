#!/bin/bash
# confirm_auto.sh <TAG> [extra crates...]: derive crate and test filter from /tmp/seed-out/<TAG>/meta.json and run confirm_seed.sh
TAG=$1; shift
read CRATE FILTER < <(python3 - "$TAG" <<'PY'
import json,sys,re
m=json.load(open('/tmp/seed-out/%s/meta.json'%sys.argv[1]))
cmd=m['demo_test']
crate=re.findall(r'-p\s+(\S+)',cmd)[0]
toks=[t for t in cmd.split() if not t.startswith('-') and '=' not in t]
flt=toks[-1].split('::')[-1]
print(crate, flt)
PY
)
echo "confirm $TAG crate=$CRATE filter=$FILTER extra=$@"
/verif/tools/confirm_seed.sh $TAG /tmp/wt-$TAG /tmp/seed-out/$TAG $CRATE $FILTER "$@"
python3 - "$TAG" <<'PY'
import sys,re
t=open('/tmp/seed-out/%s/confirm.log'%sys.argv[1]).read()
try:
    a=t.split('== patch + demo')[0]; rest=t.split('== patch + demo')[1]
    b=rest.split('== patch only, existing tests')[0]; c=rest.split('== patch only, existing tests')[1]
    print(sys.argv[1], 'clean_ok', '... ok' in a and 'FAILED' not in a, 'patch_fail', 'FAILED' in b, 'existing_ok', 'FAILED' not in c and not re.search(r'[1-9]\d* failed', c) and 'done' in c, re.findall(r'(\d+) passed',c))
except Exception as e:
    print(sys.argv[1], 'CONFIRM-PARSE-ERROR', e)
PY
