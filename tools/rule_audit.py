#!/usr/bin/env python3
"""rule_audit.py <thorough log>...: which rules are exercised by at least one stored must-fire test (seed or mutant).
A rule that never fires in any stored test is not known to be non-vacuous; the list is the to-do list for mutants."""
import re, sys, json, glob, os, collections
V = os.path.dirname(os.path.dirname(os.path.abspath(__file__)))
fired = collections.defaultdict(set)
for log in sys.argv[1:]:
    for l in open(log):
        m = re.search(r"must-fire\s+(\S+)\s+ok\s+\(exit 1, rules \[(.*?)\]", l)
        if m:
            for r in re.findall(r"'([^']+)'", m.group(2)):
                fired[r].add(m.group(1))
rules = collections.OrderedDict()
for f in sorted(glob.glob(os.path.join(V, "evidence", "C*.json"))):
    rs = json.load(open(f))["coverage"]["rules"]
    for k in rs:
        rules.setdefault(k, None)
never = [r for r in rules if r not in fired and not r.startswith("H")]
print("%d rules, %d exercised by a stored must-fire test" % (len(rules), len([r for r in rules if r in fired])))
print("not exercised:", " ".join(never))
