#!/usr/bin/env python3
"""Mutation campaign against the checker (developer tool, not a registered check).

Generates single-line operator mutants in the files the properties are anchored in (relational operator flips,
&&/||, dropped `?`-statement, negated `if`), applies each to a scratch copy of /repo/node, and runs the quick
checks of the properties anchored in that file. Output: selftest/campaign.json with, per mutant, whether it
compiled and which checks fired. Undetected compiling mutants are the triage list (many are equivalent or are
caught by the project's own tests - the campaign only measures which rules react to which edits).

usage: mutation_campaign.py [--per-file N] [--jobs J] [--seed S] [file substrings...]"""
import json, os, random, re, shutil, subprocess, sys, tempfile, collections
from concurrent.futures import ThreadPoolExecutor

V = os.path.dirname(os.path.dirname(os.path.abspath(__file__)))
args = sys.argv[1:]


def opt(name, default):
    if name in args:
        i = args.index(name)
        v = args[i + 1]
        del args[i:i + 2]
        return v
    return default


PER_FILE = int(opt("--per-file", "10"))
JOBS = int(opt("--jobs", "4"))
SEED = int(opt("--seed", "1"))
OUT = opt("--out", os.path.join(V, "selftest", "campaign.json"))
only = args

files = collections.defaultdict(set)
for l in open(os.path.join(V, "properties.jsonl")):
    d = json.loads(l)
    for f in d["anchors"]["files"]:
        if f.endswith(".rs") and f.startswith("node/"):
            files[f].add(d["id"])

OPS = [
    (re.compile(r"(?<![<>=!-])>=(?!=)"), ">"), (re.compile(r"(?<![<>=!])<=(?!=)"), "<"),
    (re.compile(r"(?<![<>=!\-])>(?![>=])"), ">="), (re.compile(r"(?<![<>=!&])<(?![<=])"), "<="),
    (re.compile(r"=="), "!="), (re.compile(r"!="), "=="), (re.compile(r"&&"), "||"), (re.compile(r"\|\|"), "&&"),
]


def candidates(path):
    """[(line index, new line, description)] for non-test, non-comment code lines"""
    src = open(path).read().split("\n")
    out = []
    in_tests = False
    for i, line in enumerate(src):
        s = line.strip()
        if s.startswith("#[cfg(test)]") or s.startswith("mod tests") or s.startswith("mod testonly"):
            in_tests = True
        if in_tests or not s or s.startswith("//") or s.startswith("#[") or s.startswith("use ") or s.startswith("///"):
            continue
        code = line.split("//")[0]
        if "tracing::" in code or "format!" in code or '"' in code and ("{}" in code or "{:" in code):
            continue
        # relational / boolean operators (skip generics, arrows, closures params, match arms)
        if not any(tok in code for tok in ("->", "=>", "fn ", "impl", "where ", "::<", "Vec<", "Option<", "Result<", "Arc<", "Box<", "<'", "let ")) or ("let " in code and (" == " in code or " != " in code or " && " in code or " || " in code or " >= " in code or " <= " in code)):
            for rx, rep in OPS:
                for m in rx.finditer(code):
                    if rx.pattern in (r"(?<![<>=!\-])>(?![>=])", r"(?<![<>=!&])<(?![<=])") and not (code[m.start() - 1:m.start()] == " " and code[m.end():m.end() + 1] == " "):
                        continue
                    new = code[:m.start()] + rep + code[m.end():]
                    out.append((i, new, "%s -> %s" % (m.group(0), rep)))
        # dropped check: a whole statement ending in `?;`
        if s.endswith("?;") and not s.startswith("let ") and "=" not in s.split("(")[0]:
            out.append((i, line[:len(line) - len(line.lstrip())] + "// mutant: dropped " + s[:40], "drop `%s`" % s[:50]))
        # negated condition
        m = re.match(r"^(\s*)if (?!let )(.+) \{$", code.rstrip())
        if m and "else" not in code:
            out.append((i, "%sif !(%s) {" % (m.group(1), m.group(2)), "negate if"))
    return src, out


def run_one(job):
    f, props, idx, new, desc, lineno = job
    scratch = tempfile.mkdtemp(prefix="mut-", dir=ROOT)
    try:
        subprocess.check_call(["rsync", "-a", "--exclude", "target", "/repo/node", scratch + "/"])
        p = os.path.join(scratch, f)
        src = open(p).read().split("\n")
        old = src[idx]
        src[idx] = new
        open(p, "w").write("\n".join(src))
        env = dict(os.environ, VP_REPO=scratch, VP_EVIDENCE_DIR=os.path.join(scratch, "ev"))
        fired = {}
        compiled = True
        for pr in sorted(props):
            out = subprocess.run([os.path.join(V, "check"), pr, "quick"], env=env, capture_output=True, text=True)
            if "does not compile under the driver" in out.stdout:
                compiled = False
                break
            if out.returncode == 1:
                fired[pr] = [l.strip()[len("violated: ["):].split("]")[0] for l in out.stdout.splitlines() if l.strip().startswith("violated: [")][:4]
            elif out.returncode != 0:
                fired[pr] = ["ANALYSIS-ERROR"]
        return {"file": f, "line": lineno, "old": old.strip()[:140], "new": new.strip()[:140], "op": desc, "compiled": compiled, "checks": sorted(props), "fired": fired}
    finally:
        shutil.rmtree(scratch, ignore_errors=True)


random.seed(SEED)
jobs = []
RERUN = opt("--rerun", None)
if RERUN:
    # re-run the undetected compiling mutants of an earlier campaign against today's rules
    for r in json.load(open(RERUN)):
        if r["compiled"] and not r["fired"]:
            src = open(os.path.join("/repo", r["file"])).read().split("\n")
            idx = r["line"] - 1
            if src[idx].strip()[:140] != r["old"] or len(r["new"]) >= 140:
                continue
            ind = src[idx][:len(src[idx]) - len(src[idx].lstrip())]
            jobs.append((r["file"], set(r["checks"]), idx, ind + r["new"], r["op"], r["line"]))
for f, props in sorted(files.items() if not RERUN else []):
    if only and not any(o in f for o in only):
        continue
    path = os.path.join("/repo", f)
    if not os.path.exists(path):
        continue
    src, cands = candidates(path)
    random.shuffle(cands)
    for idx, new, desc in cands[:PER_FILE]:
        jobs.append((f, props, idx, new, desc, idx + 1))
print("mutants:", len(jobs), flush=True)
ROOT = tempfile.mkdtemp(prefix="vp-campaign-")
results = []
try:
    with ThreadPoolExecutor(max_workers=JOBS) as pool:
        for r in pool.map(run_one, jobs):
            results.append(r)
            print("%s:%d [%s] compiled=%s fired=%s" % (r["file"].split("/")[-1], r["line"], r["op"], r["compiled"], {k: len(v) for k, v in r["fired"].items()}), flush=True)
            json.dump(results, open(OUT, "w"), indent=1)
finally:
    shutil.rmtree(ROOT, ignore_errors=True)
comp = [r for r in results if r["compiled"]]
det = [r for r in comp if r["fired"]]
print("compiled %d / %d, detected %d, undetected %d" % (len(comp), len(results), len(det), len(comp) - len(det)))
