#!/usr/bin/env python3
"""why_inline.py <qname substr>: explains the inlining decision for matching functions (uses VP_REPO or /repo)."""
import sys, os
sys.path.insert(0, os.path.dirname(os.path.dirname(os.path.abspath(__file__))))
from engine import extract, roles, inline
from engine.facts import Facts
from engine.callgraph import CallGraph
fd, th, n, s = extract.ensure_facts()
F = Facts(fd)
roles.canonicalize(F)
cg = CallGraph(F)
idx = inline.InlineIndex(F, cg, roles.resolve(F).keys())
for f in F.fns:
    if sys.argv[1] in f.qname and f.kind in ("fn", "method"):
        print(f.qname, "helper=", idx.is_helper(f), "sites=", idx.sites.get(f, 0), "vis=", f.vis, "reach=", f.reach, "name-anchor=", f.name in idx.name_set, "role=", f.qname in idx.role_names, "impl_trait=", f.item.impl_trait, "blocks=", len(F.body_of(f).blocks))
