#!/bin/bash
# usage: confirm_seed.sh <ID> <worktree> <outdir> <crate> <demo filter> [extra crates for existing tests...]
# Confirms a seeded defect: demo passes on clean tree, fails with patch; existing tests still pass with patch.
ID=$1; WT=$2; OUT=$3; CRATE=$4; FILTER=$5; shift 5
LOG=$OUT/confirm.log
export CARGO_TARGET_DIR=$WT/target CARGO_NET_OFFLINE=true
cd $WT && git reset -q --hard HEAD && git clean -fdq -e target
# cargo decides by mtime: touch every file either diff mentions after each change of the tree (a reset within the same second is otherwise missed)
touchall() { sleep 1; for f in $(grep -h "^+++ b/" $OUT/patch.diff $OUT/demo.diff | sed "s#^+++ b/##"); do [ -f $f ] && touch $f; done; }
{
echo "== clean tree + demo"; git apply $OUT/demo.diff || { echo APPLY-DEMO-FAILED; exit 1; }; touchall
(cd node && cargo test --offline -j 8 -p $CRATE -- "$FILTER" 2>&1 | grep -E "^test |test result|error" | tail -8)
echo "== patch + demo"; git apply $OUT/patch.diff || { echo APPLY-PATCH-FAILED; exit 1; }; touchall
(cd node && cargo test --offline -j 8 -p $CRATE -- "$FILTER" 2>&1 | grep -E "^test |test result|error|panicked" | tail -8)
echo "== patch only, existing tests"; git reset -q --hard HEAD && git clean -fdq -e target && git apply $OUT/patch.diff; touchall
for c in $CRATE "$@"; do (cd node && cargo test --offline -j 8 -p $c 2>&1 | grep -E "test result|FAILED|failed" | tail -6); done
git reset -q --hard HEAD && git clean -fdq -e target
echo "== done"
} > $LOG 2>&1
