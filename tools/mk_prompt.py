#!/usr/bin/env python3
"""mk_prompt.py <seed|refactor> <ID> <TAG> [N] [extra hint]: creates worktree /tmp/wt-<TAG>, out dir /tmp/seed-out/<TAG>
and prompt /tmp/seed-out/<TAG>.prompt.txt containing ONLY the property text (nothing from /verif's design)."""
import json, sys, subprocess, os
kind, pid, tag = sys.argv[1:4]
n = sys.argv[4] if len(sys.argv) > 4 else "4"
hint = sys.argv[5] if len(sys.argv) > 5 else ""
prop = None
for l in open('/verif/properties.jsonl'):
    d = json.loads(l)
    if d['id'] == pid:
        prop = d
assert prop
text = "Title: %s\n\nStatement: %s\n\nQuantified over: %s\n\nWhy the existing tests cannot settle it: %s\n\nCode anchors: %s" % (
    prop['title'], prop['statement'], prop['quantifier']['text'], prop['why_tests_cant'], json.dumps(prop['anchors'], indent=1))
wt = '/tmp/wt-' + tag
out = '/tmp/seed-out/' + tag
os.makedirs(out, exist_ok=True)
if not os.path.exists(wt):
    subprocess.check_call(['git', '-C', '/repo', 'worktree', 'add', '--detach', '-q', wt, 'HEAD'])
tmpl = open('/verif/tools/%s_prompt.tmpl' % kind).read()
s = tmpl.replace('@WT@', wt).replace('@OUT@', out).replace('@ID@', pid).replace('@PROP@', text).replace('@N@', n)
if hint:
    s += "\n\nAdditional requirement: " + hint
open(out + '.prompt.txt', 'w').write(s)
print(out + '.prompt.txt')
