#!/bin/bash
# keep_seed.sh <ID> <name> : copy a confirmed seeded defect from /tmp/seed-out/<ID> to /verif/seeded/<name>
ID=$1; NAME=$2; SRC=${3:-/tmp/seed-out/$ID}
D=/verif/seeded/$NAME; mkdir -p $D
cp $SRC/patch.diff $D/patch.diff; cp $SRC/demo.diff $D/demo.diff; cp $SRC/confirm.log $D/confirm.log
python3 - "$SRC/meta.json" "$D/meta.json" "$ID" <<'PY'
import json,sys
m=json.load(open(sys.argv[1]))
out={"property":sys.argv[3],"breaks":m.get("summary"),"needs_to_manifest":m.get("needs_to_manifest"),"files_changed":m.get("files_changed"),
"demonstration":"demo.diff (test added on top of the clean tree; passes without patch.diff, fails with it)",
"demo_test":m.get("demo_test"),"confirmed_by":"tools/confirm_seed.sh in a scratch worktree: demo on clean tree passes, demo with patch fails, existing crate tests with patch pass (confirm.log)",
"agent_reported_results":m.get("results"),"detected_by":None}
json.dump(out,open(sys.argv[2],"w"),indent=1)
PY
echo kept $D
