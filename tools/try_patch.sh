#!/bin/bash
# try_patch.sh <patch file> <PROP> [PROP...] : apply a patch to /repo, run quick checks, always revert.
P=$(realpath "$1"); shift
cd /repo && git apply "$P" || { echo "APPLY FAILED"; exit 3; }
trap 'git -C /repo checkout -q -- . ' EXIT
cd /verif
for id in "$@"; do
  ./check $id quick > /tmp/try_$id.out 2>&1; rc=$?
  echo "== $id exit=$rc"; grep -E "violated:|ANALYSIS-ERROR|^OK" /tmp/try_$id.out | cut -c1-420 | head -8
done
