#!/bin/bash
# try_patch.sh <patch file> <PROP> [PROP...] : apply a patch to a scratch copy of /repo/node, run quick checks on it
# (VP_REPO), remove the copy. /repo itself is never touched; several invocations can run in parallel.
P=$(realpath "$1"); shift
S=$(mktemp -d /tmp/tp-XXXXXX)
trap 'rm -rf "$S"' EXIT
rsync -a --exclude target /repo/node "$S/" || exit 3
(cd "$S" && patch -s -p1 < "$P") || { echo "APPLY FAILED"; exit 3; }
cd /verif
for id in "$@"; do
  VP_REPO=$S VP_EVIDENCE_DIR=$S/evidence ./check $id quick > $S/try_$id.out 2>&1; rc=$?
  echo "== $id exit=$rc"; grep -E "violated:|ANALYSIS-ERROR|^OK" $S/try_$id.out | cut -c1-420 | head -8
done
