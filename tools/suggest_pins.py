#!/usr/bin/env python3
"""suggest_pins.py [maxblocks]: workspace functions that the anchor files of the properties call (transitively, depth <= 3),
that are not pinned yet, are small, and whose meaning rows_of can read in closed form (candidates for tables/pins.json).
A reading aid: the reviewed decision is adding the entry (props, why) to the table and running mk_pins.py --write."""
import sys, os, json, collections
V = os.path.dirname(os.path.dirname(os.path.abspath(__file__)))
sys.path.insert(0, V)
from engine import extract, roles, inline
from engine.facts import Facts
from engine.runner import Ctx, PROPS
from engine.callgraph import CallGraph
from engine import registry
from rules import hazards, pins
maxb = int(sys.argv[1]) if len(sys.argv) > 1 else 40
fd, th, n, s = extract.ensure_facts()
F = Facts(fd)
roles.canonicalize(F)
inline.apply(F, roles.resolve(F).keys())
ctx = Ctx("DEV", "quick", F, th)
G = CallGraph(F)
table = pins.load()
deps = collections.defaultdict(set)     # fn path -> props
for p in sorted(PROPS):
    files = set(hazards.anchor_files(p))
    front = {f for f in F.fns if f.file in files and not f.in_testonly()}
    seen = set(front)
    for d in range(2):
        nxt = set()
        for a in front:
            for b in G.edges.get(a, ()):
                if b not in seen and G.edge_why.get((a, b)) == 'direct':
                    seen.add(b); nxt.add(b)
        for b in nxt:
            if b.file not in files:
                deps[b].add(p)
        front = nxt
out = []
for f, ps in sorted(deps.items(), key=lambda x: x[0].qname):
    if f.in_testonly() or f.kind not in ("fn", "method") or f.qname in table or "::proto::" in f.qname or f.parent is not None or f.qname.startswith("<"):
        continue
    try:
        g = F.body_of(f)
        if len(g.blocks) > maxb:
            continue
        rows, is_open, calls = pins.rows_of(ctx, g)
    except Exception as e:
        continue
    if is_open or not rows:
        continue
    out.append((f.qname, sorted(ps), len(g.blocks), {k: sorted(v) for k, v in rows.items()}, f.file))
for q, ps, nb, rows, file in out:
    print("%s  %s  blocks=%d  %s" % (q, ",".join(ps), nb, file))
    for k, v in sorted(rows.items()):
        print("      [%s] -> %s" % (k, " | ".join(v)[:200]))
print(len(out), "candidates")
if "--debug" in sys.argv:
    print(len(deps), "deps")
    import traceback
    for f, ps in list(deps.items())[:20]:
        print(f.qname, f.kind, f.parent, len(F.body_of(f).blocks))
        try:
            print(pins.rows_of(ctx, F.body_of(f)))
        except Exception:
            traceback.print_exc()
