#!/usr/bin/env python3
"""Regenerates tables/hazards.json from the current tree: every hazard site in any anchor file, with the review note
below (or a generic one). Re-read the diff of the table after running it."""
import sys, os, json, collections
sys.path.insert(0, os.path.dirname(os.path.dirname(os.path.abspath(__file__))))
from engine import extract, roles, inline
from engine.facts import Facts
from engine.runner import Ctx
from rules import hazards
fd, th, n, s = extract.ensure_facts()
F = Facts(fd)
roles.canonicalize(F)
inline.apply(F, roles.resolve(F).keys())
ctx = Ctx("H", "quick", F, th)
files = set()
for l in open(os.path.join(hazards.VERIF, "properties.jsonl")):
    files |= hazards.anchor_files(json.loads(l)["id"])
NOTES = {
    "take-then-await": "the taken value is consumed or deliberately discarded before the await (stream reuse drops the cached tail; read_exact consumes the cached frame first)",
    "double-lock": "ManualClock (test clock): the two acquisitions are independent reads",
    "swallowed-error": "deliberate: the error of a per-message / per-connection / per-iteration operation is logged and the loop continues (or the scope result is mapped), as reviewed on the pinned tree",
}
tab = collections.OrderedDict()
NOTES["static-state"] = "reviewed: not a cache of decisions - the protobuf descriptor pool / per-crate descriptor, the fake clock's epoch, the test listener-address reservation, a build-script flag"
for kind, key, where, detail in hazards.sites(ctx, files) + hazards.static_sites(ctx, files):
    e = tab.setdefault((kind, key), {"kind": kind, "key": key, "count": 0, "reason": NOTES[kind], "at": where})
    e["count"] += 1
    if kind == "static-state":
        e["ty"] = detail.split(" : ", 1)[-1]
out = sorted(tab.values(), key=lambda e: (e["kind"], e["key"]))
json.dump({"_doc": "reviewed hazard sites (rules/hazards.py); key = function | field or callee", "sites": out}, open(os.path.join(hazards.VERIF, "tables", "hazards.json"), "w"), indent=1)
print(len(out), "keys,", sum(e["count"] for e in out), "sites")
for e in out:
    print(e["kind"], "|", e["key"], "|", e["count"], "|", e["at"])

uses = hazards.config_uses(ctx)
json.dump({"_doc": "reviewed reads of configuration fields per function (rules/hazards.py H5: a field replaced by another field of the same type in one function is reported)",
           "uses": {k: dict(sorted(v.items())) for k, v in sorted(uses.items())}}, open(os.path.join(hazards.VERIF, "tables", "config_uses.json"), "w"), indent=1)
print(len(uses), "functions read configuration fields")
