#!/bin/bash
# pin_debug.sh <patch> <qname substring>: rows / skeleton of the matching functions on a scratch copy with the patch applied
P=$(realpath "$1"); Q=$2
S=$(mktemp -d /tmp/pd-XXXXXX); trap 'rm -rf "$S"' EXIT
rsync -a --exclude target /repo/node "$S/" && (cd $S && patch -s -p1 < $P) || exit 3
cd /verif; VP_REPO=$S python3 - "$Q" <<'PY' 2>&1 | grep -v conda
import sys
sys.path.insert(0, '/verif')
from engine import extract, roles, inline, registry
from engine.facts import Facts
from engine.runner import Ctx
from rules import pins
fd, th, n, s = extract.ensure_facts()
F = Facts(fd); roles.canonicalize(F); inline.apply(F, roles.resolve(F).keys())
ctx = Ctx("DEV", "quick", F, th)
for f in F.fns:
    if sys.argv[1] in f.qname and f.parent is None and not f.in_testonly():
        g = F.body_of(f)
        r = pins.rows_of(ctx, g)
        print(f.qname, "OPEN" if r[1] else "closed")
        for k, v in sorted(r[0].items()): print("   [%s] -> %s" % (k, " | ".join(sorted(v))[:300]))
        print("   skeleton", pins.rows_of.last["skeleton"], "open", pins.rows_of.last["open"])
PY
