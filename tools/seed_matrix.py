#!/usr/bin/env python3
"""Applies every seeded defect under /verif/seeded to a scratch copy of /repo and runs every quick check on it.
Writes seeded/MATRIX.json (seed -> property -> failing rule instances) and fills meta.json 'detected_by'.
Nothing under /repo is touched; the scratch copy and its evidence are removed afterwards."""
import json, os, shutil, subprocess, sys, tempfile, glob
V = os.path.dirname(os.path.dirname(os.path.abspath(__file__)))
props = [json.loads(l)["id"] for l in open(os.path.join(V, "properties.jsonl"))]
only = sys.argv[1:]
seeds = sorted(d for d in os.listdir(os.path.join(V, "seeded")) if os.path.isdir(os.path.join(V, "seeded", d)) and (not only or d in only))
scratch = tempfile.mkdtemp(prefix="vp-matrix-")
matrix = {}
mp = os.path.join(V, "seeded", "MATRIX.json")
if os.path.exists(mp) and only:
    matrix = json.load(open(mp))
try:
    for sd in seeds:
        repo = os.path.join(scratch, "repo")
        shutil.rmtree(repo, ignore_errors=True)
        os.makedirs(repo)
        subprocess.check_call(["rsync", "-a", "--exclude", "target", "/repo/node", repo + "/"])
        r = subprocess.run(["git", "apply", os.path.join(V, "seeded", sd, "patch.diff")], cwd=repo, capture_output=True, text=True)
        if r.returncode != 0:
            matrix[sd] = {"error": "patch does not apply to the current tree: " + r.stderr[:200]}
            print(sd, "PATCH DOES NOT APPLY")
            continue
        env = dict(os.environ, VP_REPO=repo, VP_EVIDENCE_DIR=os.path.join(scratch, "evidence"))
        row = {}
        for p in props:
            out = subprocess.run([os.path.join(V, "check"), p, "quick"], env=env, capture_output=True, text=True)
            viol = [l.strip()[len("violated: ["):].split("]")[0] for l in out.stdout.splitlines() if l.strip().startswith("violated: [")]
            if out.returncode != 0:
                row[p] = {"exit": out.returncode, "instances": viol[:8]}
        matrix[sd] = row
        meta_p = os.path.join(V, "seeded", sd, "meta.json")
        meta = json.load(open(meta_p))
        meta["detected_by"] = {p: v["instances"] for p, v in row.items()}
        json.dump(meta, open(meta_p, "w"), indent=1)
        print(sd, "->", {p: len(v["instances"]) for p, v in row.items()})
        json.dump(matrix, open(mp, "w"), indent=1)
finally:
    shutil.rmtree(scratch, ignore_errors=True)
