#!/usr/bin/env python3
"""Applies every seeded defect under seeded/ to a scratch copy of /repo and runs every quick check on it.
Writes seeded/MATRIX.json (seed -> property -> failing rule instances) and fills meta.json 'detected_by'.
Nothing under /repo is touched; scratch copies and their evidence are removed afterwards. VP_MATRIX_JOBS seeds at a time."""
import json, os, shutil, subprocess, sys, tempfile
from concurrent.futures import ThreadPoolExecutor
V = os.path.dirname(os.path.dirname(os.path.abspath(__file__)))
props = [json.loads(l)["id"] for l in open(os.path.join(V, "properties.jsonl"))]
only = sys.argv[1:]
seeds = sorted(d for d in os.listdir(os.path.join(V, "seeded")) if os.path.isdir(os.path.join(V, "seeded", d)) and (not only or d in only))
root = tempfile.mkdtemp(prefix="vp-matrix-")
mp = os.path.join(V, "seeded", "MATRIX.json")
matrix = json.load(open(mp)) if (os.path.exists(mp) and only) else {}


def one(sd):
    scratch = tempfile.mkdtemp(prefix="s-", dir=root)
    repo = os.path.join(scratch, "repo")
    os.makedirs(repo)
    subprocess.check_call(["rsync", "-a", "--exclude", "target", "/repo/node", repo + "/"])
    r = subprocess.run(["git", "apply", os.path.join(V, "seeded", sd, "patch.diff")], cwd=repo, capture_output=True, text=True)
    if r.returncode != 0:
        return sd, {"error": "patch does not apply to the current tree: " + r.stderr[:200]}
    env = dict(os.environ, VP_REPO=repo, VP_EVIDENCE_DIR=os.path.join(scratch, "evidence"))
    row = {}
    for p in props:
        out = subprocess.run([os.path.join(V, "check"), p, "quick"], env=env, capture_output=True, text=True)
        viol = [l.strip()[len("violated: ["):].split("]")[0] for l in out.stdout.splitlines() if l.strip().startswith("violated: [")]
        if out.returncode != 0:
            row[p] = {"exit": out.returncode, "instances": viol[:8]}
    shutil.rmtree(scratch, ignore_errors=True)
    return sd, row


try:
    with ThreadPoolExecutor(max_workers=int(os.environ.get("VP_MATRIX_JOBS", "4"))) as pool:
        for sd, row in pool.map(one, seeds):
            matrix[sd] = row
            if "error" not in row:
                meta_p = os.path.join(V, "seeded", sd, "meta.json")
                meta = json.load(open(meta_p))
                meta["detected_by"] = {p: v["instances"] for p, v in row.items()}
                json.dump(meta, open(meta_p, "w"), indent=1)
            print(sd, "->", {p: len(v["instances"]) for p, v in row.items()} if "error" not in row else row, flush=True)
            json.dump(matrix, open(mp, "w"), indent=1, sort_keys=True)
finally:
    shutil.rmtree(root, ignore_errors=True)
