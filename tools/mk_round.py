#!/usr/bin/env python3
"""mk_round.py <round-tag> <focus-file.json> [ID ...]: for every property (or the given ones) create a worktree + seeding prompt
(tools/mk_prompt.py) whose extra hint lists the defects already injected for the property (one line each, from seeded/*/meta.json,
so that neither site nor idea is repeated) followed by the round's focus text (focus-file: {"*": text, "Cxx": text})."""
import json, sys, glob, os, subprocess
tag = sys.argv[1]
focus = json.load(open(sys.argv[2]))
ids = sys.argv[3:] or ["C%02d" % i for i in range(1, 20)]
for pid in ids:
    prior = []
    for d in sorted(glob.glob('/verif/seeded/%s-*' % pid)):
        m = json.load(open(d + '/meta.json'))
        s = (m.get('breaks') or '').replace('\n', ' ')
        prior.append("  - " + s[:260])
    hint = ("The following defects have ALREADY been injected for this property in earlier rounds; do not repeat any of them, neither the site nor "
            "the idea:\n" + "\n".join(prior) + "\n\n" + focus.get(pid, focus["*"]))
    out = subprocess.check_output(['python3', '/verif/tools/mk_prompt.py', 'seed', pid, '%s%s' % (tag, pid), '4', hint]).decode().strip()
    print(out)
