#!/usr/bin/env python3
"""Regenerates tables/anchors.json: the fully-qualified names of the workspace functions that the rule sources
refer to by name (on the reviewed tree). Only these are exempt from virtual inlining; a NEW function that merely
shares a short name with one of them (e.g. a freshly extracted `complete`, `verify`, `run`) is a helper like any
other. Re-run after adding or editing rules, then re-run tools/mk_panic_table.py and all checks."""
import sys, os, json
sys.path.insert(0, os.path.dirname(os.path.dirname(os.path.abspath(__file__))))
from engine import extract, roles, inline
from engine.facts import Facts
fd, th, n, s = extract.ensure_facts()
F = Facts(fd)
roles.canonicalize(F)
names = set(x.split("::")[-1] for x in inline.no_inline_suffixes())
out = sorted(set(f.qname for f in F.fns if f.kind in ("fn", "method") and not f.in_testonly() and f.name in names))
p = os.path.join(os.path.dirname(os.path.dirname(os.path.abspath(__file__))), "tables", "anchors.json")
json.dump({"_doc": "functions named in rules/*.py or engine/roles.py on the reviewed tree; never virtually inlined", "anchors": out}, open(p, "w"), indent=0)
print(len(out), "anchors")

# reviewed paths of types, constants and free functions (engine/aliases.py)
from engine import aliases
from engine.facts import CRATES
raw = {}
for c in CRATES:
    with open(os.path.join(fd, c + ".json")) as fh:
        raw[c] = json.load(fh)
inv = aliases.inventory(raw)
json.dump(inv, open(aliases.TABLE, "w"), indent=0, sort_keys=True)
print(len(inv["adts"]), "adts", len(inv["consts"]), "consts", len(inv["free_fns"]), "free fns")
