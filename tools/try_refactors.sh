#!/bin/bash
# try_refactors.sh <dir with refactor_k.diff> <PROP> [PROP...] : run try_patch on each diff (4 in parallel), print results in order
D=$1; shift
for f in $D/refactor_*.diff; do
  ( /verif/tools/try_patch.sh $f "$@" > $f.try 2>&1 ) &
  while [ $(jobs -r | wc -l) -ge 4 ]; do sleep 1; done
done
wait
for f in $D/refactor_*.diff; do echo "### $f"; grep -v conda $f.try | cut -c1-400; done
