#!/usr/bin/env python3
"""mk_pins.py [--write]: print (or write into tables/pins.json) the rows / vocabulary of the functions listed in
tables/pins.json as they are on the current tree. The reviewed entries (props, why) are kept; `rows` and `calls` are
regenerated. Review the diff before committing: the table IS the oracle."""
import sys, os, json
sys.path.insert(0, os.path.dirname(os.path.dirname(os.path.abspath(__file__))))
from engine import extract, roles, inline
from engine.facts import Facts
from engine.runner import Ctx
from rules import pins
fd, th, n, s = extract.ensure_facts()
F = Facts(fd)
roles.canonicalize(F)
inline.apply(F, roles.resolve(F).keys())
ctx = Ctx("DEV", "quick", F, th)
p = os.path.join(os.path.dirname(os.path.dirname(os.path.abspath(__file__))), "tables", "pins.json")
table = json.load(open(p))
for q, e in sorted(table.items()):
    fs = pins.resolve(ctx, q)
    if len(fs) != 1:
        h = getattr(F, "helpers", {}).get(q)
        fs = [h] if h is not None else fs
    if len(fs) != 1:
        print("MISSING", q, len(fs))
        continue
    if "census" in e:
        e["census"] = pins.census_of(ctx, fs[0])
        print("     %s census: %s" % (q, e["census"]))
        continue
    f = F.body_of(fs[0])
    rows, is_open, calls = pins.rows_of(ctx, f)
    e["rows"] = {k: sorted(v) for k, v in sorted(rows.items())}
    e["skeleton"] = pins.rows_of.last["skeleton"]
    e["std"] = pins.rows_of.last["std"]
    if "effects" in e:
        eff, eo, ec = pins.effects_of(ctx, f)
        e["effects"] = eff
        SE = pins.Skel(ctx)
        T = ctx.T(f)
        for b in f.blocks:
            if b["t"]["k"] == "call" and "decl" in b["t"]["f"]:
                SE.walk(T.call_term(b["t"]))
        e["effects_skeleton"] = sorted(SE.items)
        e["std"] = sorted(set(e["std"]) | SE.std)
        calls = calls | ec
        print("        effects: %s%s" % (eff, " OPEN" if eo else ""))
    e["calls"] = sorted(calls)
    if q.endswith(("std::cmp::Ord>::cmp", "std::cmp::PartialOrd>::partial_cmp")):
        d = pins.decl_order(ctx, q)
        if d and len(d) > 1:
            e["decl_order"] = d
    print("%s %s" % ("OPEN " if is_open else "     ", q))
    for k, v in sorted(rows.items()):
        print("        [%s] -> %s" % (k, " | ".join(sorted(v))))
if "--write" in sys.argv:
    json.dump(table, open(p, "w"), indent=1, sort_keys=True)
    print("written", p)
