#!/usr/bin/env python3
"""mk_pins.py [--write]: print (or write into tables/pins.json) the rows / vocabulary of the functions listed in
tables/pins.json as they are on the current tree. The reviewed entries (props, why) are kept; `rows` and `calls` are
regenerated. Review the diff before committing: the table IS the oracle."""
import sys, os, json
sys.path.insert(0, os.path.dirname(os.path.dirname(os.path.abspath(__file__))))
from engine import extract, roles, inline
from engine.facts import Facts
from engine.runner import Ctx
from rules import pins
fd, th, n, s = extract.ensure_facts()
F = Facts(fd)
roles.canonicalize(F)
inline.apply(F, roles.resolve(F).keys())
ctx = Ctx("DEV", "quick", F, th)
p = os.path.join(os.path.dirname(os.path.dirname(os.path.abspath(__file__))), "tables", "pins.json")
table = json.load(open(p))
# properties whose anchor files handle values of a type (for comparison pins) / reach a function within three resolved calls (for the rest)
from rules import hazards
from engine.callgraph import CallGraph
from engine import registry  # noqa: fills PROPS
from engine.runner import PROPS
_G = CallGraph(F)
_uses_type = {}
_reaches = {}
for _p in sorted(PROPS):
    _files = set(hazards.anchor_files(_p))
    _fr = [g for g in F.fns if g.file in _files and not g.in_testonly()]
    _uses_type[_p] = " ".join(l.s for g in _fr for l in g.locals)
    seen = set(_fr)
    front = list(_fr)
    for _d in range(3):
        nxt = []
        for a in front:
            for b in _G.edges.get(a, ()):
                if b not in seen and _G.edge_why.get((a, b)) == "direct":
                    seen.add(b)
                    nxt.append(b)
        front = nxt
    _reaches[_p] = {g.qname for g in seen}


def auto_props(q):
    base = q.partition("@")[0]
    out = set()
    if base.startswith("<") and " as " in base and base.endswith(("Ord>::cmp", "PartialOrd>::partial_cmp", "PartialEq>::eq", "Hash>::hash")):
        ty = base[1:].split(" as ", 1)[0].lstrip("&")
        for p, s in _uses_type.items():
            if ty in s:
                out.add(p)
    else:
        for p, r in _reaches.items():
            if base in r:
                out.add(p)
    return out


for q, e in sorted(table.items()):
    if "--auto-props" in sys.argv and (e.get("decided_only") or e.get("census") is not None or e.get("auto_props")):
        add = sorted(auto_props(q) - set(e["props"]))
        if add:
            e["props"] = e["props"] + add
            e["auto_props"] = True
            print("     %s: also runs with %s" % (q[-70:], add))
    fs = pins.resolve(ctx, q)
    if len(fs) != 1:
        h = getattr(F, "helpers", {}).get(q)
        fs = [h] if h is not None else fs
    if len(fs) != 1:
        print("MISSING", q, len(fs))
        continue
    if "census" in e:
        e["census"] = pins.census_of(ctx, fs[0])
        print("     %s census: %s" % (q, e["census"]))
        continue
    f = F.body_of(fs[0])
    rows, is_open, calls = pins.rows_of(ctx, f)
    e["rows"] = {k: sorted(v) for k, v in sorted(rows.items())}
    e["skeleton"] = pins.rows_of.last["skeleton"]
    e["std"] = pins.rows_of.last["std"]
    if "effects" in e:
        eff, eo, ec = pins.effects_of(ctx, f)
        e["effects"] = eff
        SE = pins.Skel(ctx)
        T = ctx.T(f)
        for b in f.blocks:
            if b["t"]["k"] == "call" and "decl" in b["t"]["f"]:
                SE.walk(T.call_term(b["t"]))
        e["effects_skeleton"] = sorted(SE.items)
        e["std"] = sorted(set(e["std"]) | SE.std)
        calls = calls | ec
        print("        effects: %s%s" % (eff, " OPEN" if eo else ""))
    e["calls"] = sorted(calls)
    if q.endswith(("std::cmp::Ord>::cmp", "std::cmp::PartialOrd>::partial_cmp")):
        d = pins.decl_order(ctx, q)
        if d and len(d) > 1:
            e["decl_order"] = d
    print("%s %s" % ("OPEN " if is_open else "     ", q))
    for k, v in sorted(rows.items()):
        print("        [%s] -> %s" % (k, " | ".join(sorted(v))))
if "--write" in sys.argv:
    json.dump(table, open(p, "w"), indent=1, sort_keys=True)
    print("written", p)
