#!/usr/bin/env python3
"""anchor_coverage.py [PROP ...]: for each property, the functions defined in its anchor files in which no obligation of
the property's rules (C10.1 inventory and H hazards excluded: they visit everything) is located. A reading aid for finding
mechanisms no rule looks at - not a check."""
import sys, os, json, importlib, collections
V = os.path.dirname(os.path.dirname(os.path.abspath(__file__)))
sys.path.insert(0, V)
from engine import extract, roles, inline, registry
from engine.facts import Facts
from engine.runner import Ctx, PROPS
from rules import hazards
fd, th, n, s = extract.ensure_facts()
F = Facts(fd)
roles.canonicalize(F)
inline.apply(F, roles.resolve(F).keys())
props = sys.argv[1:] or sorted(PROPS)
spans = collections.defaultdict(list)   # file -> [(lo, hi, qname)]
allf = list(F.fns) + list(getattr(F, "helpers", {}).values())
for f in allf:
    if f.in_testonly() or f.parent is not None:
        continue
    lo, hi = f.lo, f.hi
    spans[f.file].append((lo, hi, f.qname))
for p in props:
    ctx = Ctx(p, "quick", F, th)
    for m in PROPS[p]["modules"]:
        if m in ("hazards",):
            continue
        mod = importlib.import_module("rules." + m)
        for rid, fn in mod.RULES:
            if rid == "C10.1":
                continue
            try:
                fn(ctx)
            except Exception as e:
                print("  rule", rid, "raised", e)
    hit = set()
    for o in ctx.obs:
        w = o.get("where")
        if not w or ":" not in w:
            continue
        file, line = w.rsplit(":", 1)
        file = file[len("node/"):] if file.startswith("node/") else file
        try:
            line = int(line)
        except ValueError:
            continue
        for lo, hi, q in spans.get(file, []):
            if lo <= line <= hi:
                hit.add(q)
    files = hazards.anchor_files(p)
    print("== %s: %d obligations; functions in anchor files without any obligation located in them:" % (p, len(ctx.obs)))
    for file in sorted(files):
        miss = [q for lo, hi, q in sorted(spans.get(file, [])) if q not in hit and hi - lo >= 3]
        if miss:
            print("   %s: %s" % (file, ", ".join(q.rsplit("::", 2)[-2] + "::" + q.rsplit("::", 1)[-1] if "<" not in q else q[-60:] for q in miss)))
