#!/usr/bin/env python3
"""dev_rule.py <rules module> [rule id ...]: run one rule module against the current tree (VP_REPO or /repo) and
print every obligation - for developing a rule without touching evidence/."""
import sys, os, importlib
sys.path.insert(0, os.path.dirname(os.path.dirname(os.path.abspath(__file__))))
from engine import extract, roles, inline
from engine.facts import Facts
from engine.runner import Ctx
fd, th, n, s = extract.ensure_facts()
F = Facts(fd)
roles.canonicalize(F)
inline.apply(F, roles.resolve(F).keys())
ctx = Ctx("DEV", "quick", F, th)
mod = importlib.import_module("rules." + sys.argv[1])
for rid, fn in mod.RULES:
    if len(sys.argv) > 2 and rid not in sys.argv[2:]:
        continue
    fn(ctx)
for o in ctx.obs:
    print("%-4s %s | %s | %s" % ("ok" if o["ok"] else "FAIL", o["key"], o["what"][:200], o["where"] or ""))
print(ctx.counts)
